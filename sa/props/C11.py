"""C11 -- Aave borrow/withdraw limits and risk figures follow the v3 definitions."""
from __future__ import annotations

import ast
from decimal import Decimal

from ..interp import const_value
from ..model import AnalysisError
from ..norm import Rat
from ..report import Result
from ..rules.formula import formula_check
from ..vn import Evaluator, Raise, Unreadable
from . import aave_refs as R
from .C10 import ledgers

EXPLANATION = (
    "Risk figures and limits are compared with the Aave v3 definitions as canonical expressions: health factor = "
    "sum(collateral*LT)/sum(debt) (inf without debt), weighted max LTV, weighted liquidation threshold, max borrow value "
    "= (collateral*maxLTV - debt)*0.99, minimum kept collateral = max(0, (1*debt - sum_others LT*c)/LT_token/price) - "
    "each with the column in its role. The borrow, withdraw and change_collateral ledgers are compared path by path with "
    "a reference: the LTV test includes the new debt and dominates the commit, the HF test is evaluated on the trial "
    "state and restores on rejection, the gates read usageAsCollateralEnabled/borrowingEnabled. R-SIGN: the kept amount "
    "is clamped at zero so the max-withdraw helper cannot exceed the supply. R-CONST: HF threshold 1."
)


def const_rule(model, res):
    cls = model.cls("AaveV3CoreLib")
    for k, w in (("HEALTH_FACTOR_LIQUIDATION_THRESHOLD", Decimal("1")),):
        cc = model.class_const(cls, k)
        if cc is None:
            raise AnalysisError(f"C11: constant {k} not found")
        ok = const_value(cc[1]) == w
        res.ob("R-CONST", f"AaveV3CoreLib.{k} == {w}", cls.module.relpath + f":{cc[1].lineno}", ok=ok)
        if not ok:
            res.find("R-CONST", "AaveV3CoreLib", f"{k} != {w}", cls.module.relpath + f":{cc[1].lineno}",
                     f"{k} is {ast.unparse(cc[1])}; operations must keep the health factor >= 1")


def bounded_helper(model, res):
    """R-SIGN: get_max_withdraw_amount = supply - kept needs kept >= 0 on every path."""
    f = model.func("AaveV3CoreLib.get_min_withdraw_kept_amount")
    try:
        paths = Evaluator(model)._function_paths_ctx(f, {}, None, 0, f.cls)
    except Unreadable as e:
        raise AnalysisError(f"C11: get_min_withdraw_kept_amount unreadable ({e})")
    bad = []
    for conds, v in paths:
        if isinstance(v, Raise):
            continue
        if isinstance(v, Rat):
            if v.is_const():
                if v.const_value() < 0:
                    bad.append(v)
                continue
            a = v.single_atom()
            if isinstance(a, tuple) and a[0] == "max" and any(x.is_const() and x.const_value() >= 0 for x in a[1]):
                continue
            bad.append(v)
    ok = not bad
    res.ob("R-SIGN", "minimum kept collateral is clamped at >= 0 (so max-withdraw <= supplied)", f.loc(), ok=ok,
           detail="" if ok else f"unclamped result {bad[0]!r}"[:300])
    if not ok:
        res.find("R-SIGN", f.qualname, "kept amount can be negative", f.loc(),
                 "get_min_withdraw_kept_amount returns (debt - other collateral*LT)/LT/price without a lower clamp; when the "
                 "other collateral already covers the debt it is negative and get_max_withdraw_amount exceeds the supply")


def run(model, tier="quick"):
    res = Result("C11", EXPLANATION)
    res.rules = ["R-FORMULA", "R-DOM", "R-SIGN", "R-CONST"]
    const_rule(model, res)
    C = "AaveV3CoreLib."
    formula_check(res, model, C + "health_factor", R.REF_HF, "HF = sum(collateral*LT)/sum(debt), inf without debt")
    formula_check(res, model, C + "max_ltv", R.REF_MAX_LTV, "max LTV = sum(collateral*LTV)/sum(collateral)")
    formula_check(res, model, C + "total_liquidation_threshold", R.REF_LIQ_THRESHOLD, "LT = sum(collateral*LT)/sum(collateral)")
    formula_check(res, model, C + "get_max_borrow_value", R.REF_MAX_BORROW_VALUE, "max borrow = (collateral*maxLTV - debt)*0.99",
                  opaque=["max_ltv"])
    formula_check(res, model, C + "get_min_withdraw_kept_amount", R.REF_MIN_KEPT,
                  "kept = max(0, (1*debt - sum_{others} LT*c) / LT_token / price)")
    bounded_helper(model, res)
    M = "AaveV3Market."
    opq = ["get_min_withdraw_kept_amount", "get_max_borrow_value", "collateral_value", "borrows_value", "supplies"]
    formula_check(res, model, M + "get_max_withdraw_amount", R.REF_MAX_WITHDRAW, "max withdraw = supplied - kept", opaque=opq)
    formula_check(res, model, M + "get_max_borrow_amount", R.REF_MAX_BORROW, "max borrow amount = max borrow value / price", opaque=opq)
    # the views feed the risk functions in their roles
    for prop, ref, what in (
        ("health_factor", "def health_factor(self):\n    return AaveV3CoreLib.health_factor(self.collateral_value, self.borrows_value, self._risk_parameters)\n",
         "market HF uses collateral (not all supplies) and debts"),
        ("max_ltv", "def max_ltv(self):\n    return AaveV3CoreLib.max_ltv(self.collateral_value, self._risk_parameters)\n", "market max LTV uses collateral"),
        ("liquidation_threshold", "def liquidation_threshold(self):\n    return AaveV3CoreLib.total_liquidation_threshold(self.collateral_value, self._risk_parameters)\n",
         "market LT uses collateral"),
    ):
        formula_check(res, model, M + prop, ref, what, opaque=["collateral_value", "borrows_value", "health_factor", "max_ltv",
                                                             "total_liquidation_threshold"])
    ledgers(res, model, ["borrow", "withdraw", "change_collateral"])
    res.floor("obligations", len(res.obligations), 14)
    # every Aave figure is read through the memo caches: their typestate (no stale read, no stale exit) is a premise here
    from ..rules.cache import run_cache
    if "R-CACHE" not in res.rules:
        res.rules.append("R-CACHE")
    res.units["aave_cache_writer_methods"] = run_cache(model, res, "AaveV3Market", res.prop)[0]
    from .C10 import ledgers as _ledgers, views as _views
    _ledgers(res, model, ["supply"])       # a top-up cannot change the collateral flag behind the health-factor check
    _views(res, model)                     # collateral / debt values use each side's own index
    # constructors establish the relations between fields that the references above take for granted
    from .ctor_refs import constructors
    res.units["constructor_references"] = constructors(res, model, ('aave',))
    from ..rules.fresh import fresh_rule
    if "R-FRESH" not in res.rules:
        res.rules.append("R-FRESH")
    fresh_rule(model, res, scope=('demeter/aave/',))
    res.assumptions = ["risk parameter table columns are the protocol's (data)"]
    res.not_decided = ["acceptance exactly at the frontier (Decimal rounding at HF = 1)",
                       "that helper amounts are themselves accepted when re-submitted (composition of rounding)"]
    return res


MANIFEST = {
    "technique": "formula identity of the risk figures and ledger identity of the limit-enforcing operations against the v3 definitions; sign rule for the bounded helper",
    "claim": "Health factor, weighted max LTV, weighted liquidation threshold, max-borrow value and minimum kept collateral "
             "equal the v3 definitions as canonical expressions (column roles included); borrow/withdraw/collateral-change "
             "check exactly the stated conditions on the stated state before committing (compared path by path with a "
             "reference ledger); the max-withdraw helper is bounded by the supply.",
    "note": "Trusted: reference model sa/props/aave_refs.py. Not decided: behaviour exactly at the frontier (Decimal rounding).",
}
