"""C08 -- per-bar LP fee = volume x fee rate x in-range path fraction x liquidity share."""
from __future__ import annotations

import ast

from ..model import AnalysisError
from ..report import Result
from ..rules.formula import effects_check, formula_check, nested_func

EXPLANATION = (
    "V3CoreLib.update_fee is compared with a reference written from the statement, in three pieces: the classification "
    "of a tick against the range (>= upper: above, < lower: below, else inside); the accrual step pending_k += weight * "
    "inAmount_k/10^{d_k} * (own liquidity / currentLiquidity) * fee_rate for k = 0, 1 with each token's own volume and "
    "decimals; and the weight: 1 when the previous and current close are both inside, nothing when both are on the same "
    "side outside, otherwise (third - second of the four sorted points {lower, upper, previous close, close}) / |previous "
    "close - close| i.e. the in-range part of the tick path, nothing when that part is empty. UniLpMarket.set_market_status "
    "is compared as a ledger with its reference: the row is a COPY of the input row, currentLiquidity is raised by the sum "
    "of ALL own positions' liquidity exactly once per refresh, the previous-close tracker is taken from the status being "
    "replaced. R-IDEM: every set_market_status that stores a value computed from the status being replaced does so only "
    "when the incoming timestamp differs from the stored one, so the second refresh of a bar (after a write) cannot move "
    "the start of the path. The update loop visits every position; the second refresh visits every market with has_update "
    "(loop without break/return). R-EFFECT: pending amounts are written only by update_fee, remove and collect."
)

REF_IN_RANGE = '''
def in_range(tick):
    if tick >= pos.upper_tick:
        return 1
    if tick < pos.lower_tick:
        return -1
    return 0
'''

REF_CALC = '''
def calc_amounts(weight):
    share = Decimal(position.liquidity) / Decimal(state.currentLiquidity)
    position.pending_amount0 += weight * share * pool.fee_rate * from_atomic_unit(state.inAmount0, pool.token0.decimal)
    position.pending_amount1 += weight * share * pool.fee_rate * from_atomic_unit(state.inAmount1, pool.token1.decimal)
'''

REF_UPDATE_FEE = '''
def update_fee(last_tick, pool, pos, position, state):
    def calc_amounts(weight):
        pass

    def in_range(tick):
        pass

    now_c = in_range(state.closeTick)
    last_c = in_range(last_tick)
    if now_c == last_c:
        if now_c == 0:
            calc_amounts(DECIMAL_1)
        return
    pts = sorted([pos.lower_tick, pos.upper_tick, last_tick, state.closeTick])
    inside = pts[2] - pts[1]
    if inside == 0:
        return
    w = Decimal(inside) / Decimal(abs(state.closeTick - last_tick))
    if w > 1:
        raise RuntimeError("weight")
    calc_amounts(w)
'''

REF_SET_STATUS = '''
def set_market_status(self, market_status, price):
    super().set_market_status(market_status, price)
    own = sum([p.liquidity for p in self._positions.values()])
    if market_status.timestamp is None or self._market_status.timestamp != market_status.timestamp:
        if "closeTick" in self._market_status.data.index:
            self.last_tick = self._market_status.data.closeTick
        else:
            self.last_tick = np.nan
    if market_status.data is None:
        market_status.data = self.data.loc[market_status.timestamp].copy()
    market_status.data.currentLiquidity = market_status.data.currentLiquidity + own
    self._market_status = market_status
'''

REF_UPDATE_LOOP = '''
def __update_fee(self):
    for key, p in self._positions.items():
        V3CoreLib.update_fee(self.last_tick, self.pool_info, key, p, self.market_status.data)
'''

REF_SNAPSHOT = '''
def __set_market_snapshot(self, timestamp, update=False):
    for k in self.broker.markets.keys():
        if (not update) or (update and self._broker.markets[k].has_update):
            self._broker.markets[k].set_market_status(MarketStatus(timestamp, None), self._token_prices.loc[timestamp])
'''


def idem_rule(model, res):
    """R-IDEM over every set_market_status implementation."""
    n = 0
    for c in [model.cls("Market")] + model.subclasses("Market"):
        f = c.methods.get("set_market_status")
        if f is None:
            continue
        n += 1
        bad = []
        for st in ast.walk(f.node):
            if not isinstance(st, ast.Assign):
                continue
            tg = st.targets[0]
            if not (isinstance(tg, ast.Attribute) and isinstance(tg.value, ast.Name) and tg.value.id == "self"):
                continue
            if tg.attr in ("_market_status",):
                continue
            reads_prev = any(isinstance(x, ast.Attribute) and x.attr in ("_market_status", "market_status")
                             and isinstance(x.value, ast.Name) and x.value.id == "self" for x in ast.walk(st.value))
            if not reads_prev:
                continue
            # must be control dependent on a comparison of incoming and stored timestamps
            guarded = False
            p = getattr(st, "_parent", None)
            while p is not None and p is not f.node:
                if isinstance(p, ast.If):
                    txt = ast.unparse(p.test)
                    if "timestamp" in txt and "self._market_status.timestamp" in txt.replace("self.market_status", "self._market_status") \
                            and ("!=" in txt or "==" in txt):
                        guarded = True
                p = getattr(p, "_parent", None)
            if not guarded:
                bad.append(st)
        res.ob("R-IDEM", f"{c.name}.set_market_status: values derived from the replaced status are stored only when the bar "
                         f"changes", f.loc(), ok=not bad)
        for st in bad:
            res.find("R-IDEM", f"{c.name}.set_market_status", f"`{ast.unparse(st)[:90]}` is not idempotent under a second refresh",
                     f.loc(st), f"`{ast.unparse(st)[:120]}` reads the status being replaced; the actuator refreshes a market a "
                                f"second time in the same bar after any write, and then the value becomes the CURRENT bar's "
                                f"(the fee path no longer starts at the previous close)")
    return n


def who_writes_pending(model, res):
    allowed = {"update_fee", "calc_amounts", "__remove_liquidity", "__collect_fee", "update_fee_old"}
    bad = []
    n = 0
    for f in model.all_functions():
        for node in ast.walk(f.node):
            tg = None
            if isinstance(node, ast.AugAssign):
                tg = node.target
            elif isinstance(node, ast.Assign):
                tg = node.targets[0]
            if isinstance(tg, ast.Attribute) and tg.attr in ("pending_amount0", "pending_amount1"):
                n += 1
                if f.name not in allowed:
                    bad.append((f, node))
    res.ob("R-EFFECT", f"pending fee amounts are written only by fee accrual, remove and collect ({n} stores)", "demeter/uniswap", ok=not bad)
    for f, node in bad:
        res.find("R-EFFECT", f.qualname, f"unexpected writer of pending amounts: {ast.unparse(node)[:80]}", f.loc(node),
                 f"{f.qualname} writes position.pending_amount*; only fee accrual, remove_liquidity and collect_fee may")
    return n


def run(model, tier="quick"):
    res = Result("C08", EXPLANATION)
    res.rules = ["R-FORMULA", "R-PAIR", "R-IDEM", "R-EFFECT", "R-SHAPE"]
    formula_check(res, model, nested_func(model, "V3CoreLib.update_fee", "in_range"), REF_IN_RANGE,
                  "classification: tick >= upper above, tick < lower below, else inside")
    effects_check(res, model, nested_func(model, "V3CoreLib.update_fee", "calc_amounts"), REF_CALC,
                  "accrual: weight * volume_k/10^d_k * own/currentLiquidity * fee rate, per token", [], opaque=["from_atomic_unit"])
    formula_check(res, model, "uniswap.helper.from_atomic_unit", "def f(atomic_unit_amount, decimal):\n    return Decimal(int(atomic_unit_amount)) / Decimal(10**decimal)\n",
                  "atomic units -> token units")
    effects_check(res, model, "V3CoreLib.update_fee", REF_UPDATE_FEE,
                  "weight: 1 inside, none outside on one side, else in-range part of the path / path length", ["calc_amounts"],
                  opaque=["in_range"])
    effects_check(res, model, "UniLpMarket.set_market_status", REF_SET_STATUS,
                  "refresh: copy of the row; currentLiquidity += sum of ALL own liquidity once; previous close tracked only when the bar changes",
                  ["set_market_status"], opaque=[])
    effects_check(res, model, "UniLpMarket.__update_fee", REF_UPDATE_LOOP, "fee update visits every position with the tracked previous close",
                  ["update_fee"])
    effects_check(res, model, "Actuator.__set_market_snapshot", REF_SNAPSHOT,
                  "status refresh visits every market (second refresh: every market with has_update)", ["set_market_status"])
    res.floor("set_market_status_implementations", idem_rule(model, res), 6)
    res.floor("pending_amount_stores", who_writes_pending(model, res), 4)
    from .base_refs import write_gate, gate_coverage
    write_gate(res, model)
    gate_coverage(res, model, "UniLpMarket", {"liquidity"},
                  "the pool's current liquidity in the status row keeps the own liquidity of the start of the bar, and the share "
                  "own/(pool+own) of this bar's fee is computed with a denominator that no longer contains what the position holds", floor=2)
    from ..rules.alias import loop_sharing_rule
    res.units["objects_built_before_a_loop_and_passed_inside"] = loop_sharing_rule(model, res, scope=() if res.prop == "C19" else ("demeter/core/", "demeter/broker/"))
    # constructors establish the relations between fields that the references above take for granted
    from .ctor_refs import constructors
    res.units["constructor_references"] = constructors(res, model, ('pool', 'market'))
    from ..rules.fresh import fresh_rule
    if "R-FRESH" not in res.rules:
        res.rules.append("R-FRESH")
    fresh_rule(model, res, scope=('demeter/uniswap/', 'demeter/core/'))
    res.assumptions = ["closeTick / inAmount / currentLiquidity columns are per-bar pool data (loader)"]
    res.not_decided = ["'never more than own/(pool+own)' with several positions as an inequality", "Decimal precision"]
    return res


MANIFEST = {
    "technique": "formula/ledger identity of the fee accrual and the status refresh against references; idempotence rule for values derived from the replaced status; write-gate coverage of every writer of a position's liquidity (call-graph rule)",
    "claim": "The classification, the per-token accrual formula, the path-fraction weight (middle interval of the four sorted "
             "points over the path length), the refresh (copied row, own liquidity of all positions added once, previous close "
             "tracked only on a bar change) and the loops over positions/markets are identical to references written from the "
             "statement; no set_market_status lets a second same-bar refresh change a value derived from the previous status.",
    "note": "Trusted: references in sa/props/C08.py. Not decided: the several-positions inequality, Decimal precision.",
}
