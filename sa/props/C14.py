"""C14 -- Squeeth vaults: 150% collateral rule, TWAP pricing, liquidation amounts."""
from __future__ import annotations

import ast
from decimal import Decimal

from ..interp import const_value
from ..model import AnalysisError
from ..report import Result
from ..rules.formula import effects_check, formula_check
from ..vn import Evaluator, Raise

EXPLANATION = (
    "Formula identity with references written from the statement and controller.sol: vault status (safe iff "
    "collateral*2 >= debt*3 with debt = short*nf*twap/1e4, dust iff collateral < 0.5 ETH, no-debt vaults are safe), "
    "effective collateral (ETH + LP ETH incl. pending + LP oSQTH incl. pending valued at index price), geometric-mean "
    "TWAP over `[now-(7-1)min, now]` clipped at the first row (upper bound = current bar: R-TIME), liquidation amounts "
    "(half the debt -> dust => full -> capped by collateral; collateral = debt * TWAP oSQTH * 1.1), reduce-debt bounty "
    "(2% of LP value), mint helper. Ledger identity (R-PAIR) for deposit, _withdraw_collateral, burn_and_withdraw "
    "(burn clamped to vault debt), open_deposit_mint, _liquidate, _get_reduce_debt_result_in_vault, liquidate and "
    "update (liquidation iff the same safety predicate is false). R-DOM: _check_vault comes after the last vault/wallet "
    "mutation on every accepting path of the four risk-increasing operations. R-CONST: 3/2, 0.5, 7, 2%, 10%, 1e4."
)

REF_STATUS = '''
def get_vault_status(self, vault_key, norm_factor, twap_eth_price=None):
    if twap_eth_price is None:
        twap_eth_price = self.get_twap_price(WETH)
    v = self.vault[vault_key]
    if v.osqth_short_amount == 0:
        return True, False
    debt = v.osqth_short_amount * norm_factor * twap_eth_price / 10000
    coll = self._get_effective_collateral_in_eth(vault_key, norm_factor, twap_eth_price)
    return coll * 2 >= debt * 3, coll < Decimal("0.5")
'''

REF_COLL = '''
def _get_effective_collateral_in_eth(self, vault_key, norm_factor=None, eth_price=None):
    v = self.vault[vault_key]
    if v.uni_nft_id is None:
        return v.collateral_amount
    if norm_factor is None:
        norm_factor = self.get_norm_factor()
    if eth_price is None:
        eth_price = self.get_twap_price(WETH)
    amounts = self.squeeth_uni_pool.get_position_amount(v.uni_nft_id)
    lp = self.squeeth_uni_pool.positions[v.uni_nft_id]
    eth_in_lp = amounts[0] + lp.pending_amount0
    sqth_in_lp = amounts[1] + lp.pending_amount1
    return v.collateral_amount + eth_in_lp + sqth_in_lp * norm_factor * eth_price / 10000
'''

REF_TWAP = '''
def get_twap_price(self, token, now=None):
    if self._market_status.timestamp is None:
        return self._market_status.data[token.name]
    if now is None:
        now = self._market_status.timestamp
    first = now - timedelta(minutes=6)
    if first < self.data.index[0]:
        first = self.data.index[0].to_pydatetime()
    return calc_twap_price(self.data[first:now][token.name])
'''

REF_CALC_TWAP = '''
def calc_twap_price(prices):
    logs = prices.apply(lambda p: math.log(p, 1.0001))
    return Decimal(math.pow(1.0001, logs.sum() / len(prices)))
'''

REF_SINGLE = '''
def _get_single_liquidation_amount(self, max_input_osqth, max_liquidatable_osqth):
    n = max_input_osqth if max_input_osqth < max_liquidatable_osqth else max_liquidatable_osqth
    return n, n * self.get_twap_price(oSQTH) * Decimal("1.1")
'''

REF_LIQ_RESULT = '''
def _get_liquidation_result(self, max_osqth_amount, vault_short_amount, vault_collateral_amount):
    half = self._get_single_liquidation_amount(max_osqth_amount, vault_short_amount / 2)
    n = half[0]
    pay = half[1]
    if vault_collateral_amount > pay and vault_collateral_amount - pay < Decimal("0.5"):
        full = self._get_single_liquidation_amount(max_osqth_amount, vault_short_amount)
        n = full[0]
        pay = full[1]
    if pay > vault_collateral_amount:
        return vault_short_amount, vault_collateral_amount
    return n, pay
'''

REF_BOUNTY = '''
def _get_reduce_debt_bounty(self, eth_withdrawn, osqth_reduced):
    return (eth_withdrawn + osqth_reduced * self.get_twap_price(oSQTH)) * Decimal("0.02")
'''

REF_MINT_HELPER = '''
def collateral_amount_to_osqth(self, collateral_amount, collateral_rate=CR_DENOMINATOR):
    debt_in_eth = collateral_amount / collateral_rate
    return debt_in_eth * 10000 / (self.get_norm_factor() * self.get_twap_price(WETH))
'''

REF_DEPOSIT = '''
def deposit(self, vault_key, eth_value):
    self.broker.subtract_from_balance(WETH, eth_value)
    self.vault[vault_key].collateral_amount += eth_value
    self._record_action(UpdateCollateralAction(
        market=self.market_info, vault_id=vault_key.id, collateral_amount=UnitDecimal(eth_value, WETH.name),
        collateral_after=UnitDecimal(self.vault[vault_key].collateral_amount, WETH.name), fee=UnitDecimal(DECIMAL_0, WETH.name)))
'''

REF_WITHDRAW_COLL = '''
def _withdraw_collateral(self, vault_key, amount=None):
    if vault_key not in self.vault:
        raise DemeterError("unknown vault")
    held = self.vault[vault_key].collateral_amount
    if amount is None or amount > held:
        amount = held
    self.vault[vault_key].collateral_amount -= amount
    self.broker.add_to_balance(WETH, amount)
    self._check_vault(vault_key, self.get_norm_factor())
    self._record_action(UpdateCollateralAction(
        market=self.market_info, vault_id=vault_key.id, collateral_amount=UnitDecimal(DECIMAL_0 - amount, WETH.name),
        collateral_after=UnitDecimal(self.vault[vault_key].collateral_amount, WETH.name), fee=UnitDecimal(DECIMAL_0, WETH.name)))
'''

REF_BURN = '''
def burn_and_withdraw(self, vault_key, osqth_burn_amount, withdraw_eth_amount):
    if vault_key not in self.vault:
        raise DemeterError("unknown vault")
    vault = self.vault[vault_key]
    if osqth_burn_amount > 0:
        if vault.osqth_short_amount >= osqth_burn_amount:
            burnt = osqth_burn_amount
            vault.osqth_short_amount -= osqth_burn_amount
        else:
            burnt = vault.osqth_short_amount
            vault.osqth_short_amount = 0
        self.broker.subtract_from_balance(oSQTH, burnt)
        self._record_action(UpdateShortAction(
            market=self.market_info, vault_id=vault_key.id, short_amount=UnitDecimal(DECIMAL_0 - burnt, oSQTH.name),
            short_after=UnitDecimal(vault.osqth_short_amount, oSQTH.name)))
    if withdraw_eth_amount > 0:
        self._withdraw_collateral(vault_key, withdraw_eth_amount)
    self._check_vault(vault_key, self.get_norm_factor())
'''

REF_LIQUIDATE_INNER = '''
def _liquidate(self, vault, max_debt_amount, norm_factor):
    r = self._get_liquidation_result(max_debt_amount, vault.osqth_short_amount, vault.collateral_amount)
    n = r[0]
    pay = r[1]
    if max_debt_amount < n:
        raise DemeterError("need full liquidation")
    vault.osqth_short_amount -= n
    vault.collateral_amount -= pay
    st = self.get_vault_status(VaultKey(vault.id), norm_factor)
    if st[1]:
        raise DemeterError("dust")
    self._record_action(LiquidationAction(
        market=self.market_info, vault_id=vault.id, liquidate_amount=UnitDecimal(n, oSQTH.name),
        short_amount_after=UnitDecimal(vault.osqth_short_amount, oSQTH.name),
        collateral_to_pay=UnitDecimal(pay, WETH.name), collateral_after=UnitDecimal(vault.collateral_amount, WETH.name)))
    return n, pay
'''

REF_REDUCE_IN_VAULT = '''
def _get_reduce_debt_result_in_vault(self, vault, nft_eth_amount, nft_osqth_amount, pay_bounty):
    bounty = DECIMAL_0
    if pay_bounty:
        bounty = self._get_reduce_debt_bounty(nft_eth_amount, nft_osqth_amount)
    if nft_osqth_amount > vault.osqth_short_amount:
        excess = nft_osqth_amount - vault.osqth_short_amount
        burn = vault.osqth_short_amount
    else:
        excess = DECIMAL_0
        burn = nft_osqth_amount
    vault.osqth_short_amount -= burn
    vault.uni_nft_id = None
    vault.collateral_amount += nft_eth_amount
    bounty = bounty if bounty < vault.collateral_amount else vault.collateral_amount
    vault.collateral_amount -= bounty
    return burn, excess, bounty
'''

REF_UPDATE = '''
def update(self):
    nf = self.get_norm_factor()
    p = self.get_twap_price(WETH)
    for vk, v in self.vault.items():
        st = self.get_vault_status(vk, nf, p)
        if not st[0]:
            self.liquidate(vk)
'''

# bar-end liquidation of one vault (statement): only an unsafe vault; LP collateral is first redeemed to burn debt with the
# 2% bounty; if that made the vault safe nothing more happens; otherwise the bounty is added back and the debt is
# liquidated against collateral (half / full / capped: _get_liquidation_result) up to the whole short amount.
REF_LIQUIDATE_OUTER = '''
def liquidate(self, vault_key):
    if vault_key not in self.vault:
        raise DemeterError("unknown vault")
    v = self.vault[vault_key]
    before = self.get_vault_status(vault_key, self.get_norm_factor())
    if before[0]:
        raise DemeterError("safe vault")
    r = self._reduce_debt(vault_key, True)
    after = self.get_vault_status(vault_key, self.get_norm_factor())
    if after[0]:
        return DECIMAL_0
    v.collateral_amount += r[2]
    done = self._liquidate(v, v.osqth_short_amount, self.get_norm_factor())
    return done[0]
'''

REF_REDUCE_DEBT = '''
def _reduce_debt(self, vault_key, pay_bounty):
    v = self.vault[vault_key]
    if v.uni_nft_id is None:
        return DECIMAL_0, DECIMAL_0, DECIMAL_0, DECIMAL_0
    lp = v.uni_nft_id
    got = self._redeem_uni_token(lp)
    r = self._get_reduce_debt_result_in_vault(v, got[0], got[1], pay_bounty)
    if r[1] > 0:
        self.broker.add_to_balance(oSQTH, r[1])
    self._record_action(ReduceDebtAction(
        market=self.market_info, vault_id=vault_key.id, position=lp,
        withdrawn_eth_amount=UnitDecimal(got[0], WETH.name), withdrawn_osqth_amount=UnitDecimal(got[1], oSQTH.name),
        burn_amount=UnitDecimal(r[0], oSQTH.name), excess=UnitDecimal(r[1], oSQTH.name), bounty=UnitDecimal(r[2], WETH.name),
        short_amount_after=UnitDecimal(v.osqth_short_amount, oSQTH.name),
        collateral_after=UnitDecimal(v.collateral_amount, WETH.name)))
    return r[0], r[1], r[2], got[0]
'''

REF_CHECK_VAULT = '''
def _check_vault(self, vault_key, norm_factor):
    st = self.get_vault_status(vault_key, norm_factor)
    if not st[0]:
        raise DemeterError("unsafe")
    if st[1]:
        raise DemeterError("dust")
'''

# mint + deposit (+ LP) in one transaction: a new vault when no key is given; the minted oSQTH goes to the wallet and onto
# the vault's debt; the ETH goes wallet -> vault through deposit(); the safety check comes after all of it.
REF_OPEN_DEPOSIT_MINT = '''
def open_deposit_mint(self, deposit_eth_amount, osqth_mint_amount=DECIMAL_0, vault_key=None, uni_position=None):
    nf = self.get_norm_factor()
    if vault_key is None:
        self._max_vault_id += 1
        vault_key = VaultKey(self._max_vault_id)
        self.vault[vault_key] = Vault(vault_key.id)
        self._record_action(AddVaultAction(market=self.market_info, vault_id=vault_key.id, vault_count=len(self.vault)))
    fee = Decimal(0)
    to_deposit = deposit_eth_amount
    if osqth_mint_amount > DECIMAL_0:
        fr = self._get_fee(self.vault[vault_key], deposit_eth_amount, osqth_mint_amount)
        fee = fr[0]
        to_deposit = fr[1]
        self.vault[vault_key].osqth_short_amount += osqth_mint_amount
        self.broker.add_to_balance(oSQTH, osqth_mint_amount)
        self._record_action(UpdateShortAction(
            market=self._market_info, vault_id=vault_key.id, short_amount=UnitDecimal(osqth_mint_amount, oSQTH.name),
            short_after=UnitDecimal(self.vault[vault_key].osqth_short_amount, oSQTH.name)))
    if deposit_eth_amount > 0:
        self.deposit(vault_key, to_deposit)
    if uni_position is not None:
        self._deposit_uni_position(vault_key, uni_position)
    self._check_vault(vault_key, nf)
    if fee > 0:
        self.broker.subtract_from_balance(WETH, fee)
    return vault_key, osqth_mint_amount
'''

REF_OPEN_BY_RATE = '''
def open_deposit_mint_by_collat_rate(self, deposit_eth_amount, collateral_rate=CR_DENOMINATOR, vault_key=None, uni_position=None):
    n = self.collateral_amount_to_osqth(deposit_eth_amount, collateral_rate)
    return self.open_deposit_mint(deposit_eth_amount, n, vault_key, uni_position)
'''

# the long side trades oSQTH on the Uniswap pool: an ETH budget is converted with the bar's oSQTH price
REF_BUY_SQTH = '''
def buy_squeeth(self, osqth_amount=None, eth_amount=None):
    if osqth_amount is None and eth_amount is not None:
        osqth_amount = eth_amount / self._market_status.data["OSQTH"]
    r = self._squeeth_uni_pool.buy(osqth_amount)
    return r[0], r[1], r[2]
'''
REF_SELL_SQTH = '''
def sell_squeeth(self, osqth_amount=None, eth_amount=None):
    if osqth_amount is None and eth_amount is not None:
        osqth_amount = eth_amount / self._market_status.data["OSQTH"]
    r = self._squeeth_uni_pool.sell(osqth_amount)
    return r[0], r[1], r[2]
'''

WALLET = ["subtract_from_balance", "add_to_balance", "_record_action", "_check_vault", "_withdraw_collateral",
          "deposit", "_deposit_uni_position", "transfer_position_in", "transfer_position_out", "liquidate", "_reduce_debt",
          "_liquidate", "_redeem_uni_token", "_get_reduce_debt_result_in_vault", "open_deposit_mint"]
OPQ = ["get_twap_price", "get_norm_factor", "_get_effective_collateral_in_eth", "get_position_amount", "calc_twap_price",
       "_get_single_liquidation_amount", "_get_liquidation_result", "_get_reduce_debt_bounty", "get_vault_status"]


def const_rule(model, res):
    cls = model.cls("SqueethMarket")
    want = {"TWAP_PERIOD": 7, "MIN_DEPOSIT_AMOUNT": Decimal("0.5"), "CR_NUMERATOR": 3, "CR_DENOMINATOR": 2,
            "REDUCE_DEBT_BOUNTY": Decimal("0.02"), "LIQUIDATION_BOUNTY": Decimal("0.1"), "INDEX_SCALE": 10000}
    n = 0
    for k, w in want.items():
        cc = model.class_const(cls, k)
        if cc is None:
            raise AnalysisError(f"C14: constant SqueethMarket.{k} not found")
        v = const_value(cc[1])
        ok = v == w
        n += 1
        res.ob("R-CONST", f"SqueethMarket.{k} == {w}", cls.module.relpath + f":{cc[1].lineno}", ok=ok)
        if not ok:
            res.find("R-CONST", "SqueethMarket", f"{k} != {w}", cls.module.relpath + f":{cc[1].lineno}",
                     f"SqueethMarket.{k} is {ast.unparse(cc[1])}, the statement/protocol value is {w}")
    return n


def post_dominance(model, res):
    """_check_vault is the last vault/wallet effect on every accepting path of the risk-increasing operations."""
    ops = ["SqueethMarket.open_deposit_mint", "SqueethMarket._withdraw_collateral", "SqueethMarket.withdraw_uni_position",
           "SqueethMarket.burn_and_withdraw"]
    n = 0
    for q in ops:
        f = model.func(q)
        from ..vn import Unreadable
        try:
            paths = Evaluator(model, opaque_funcs=OPQ).effect_paths(f, WALLET, f.cls)
        except Unreadable as e:
            raise AnalysisError(f"C14: {q} unreadable for the post-dominance rule ({e})")
        bad = None
        npaths = 0
        for conds, env, ret in paths:
            if isinstance(ret, Raise):
                continue
            npaths += 1
            fx = env.get("$fx", ())
            idx_check = [i for i, e in enumerate(fx) if e[0] == "call" and e[1] == "_check_vault"]
            risky = [i for i, e in enumerate(fx) if (e[0] == "store" and "vault" in repr(e[1]))
                     or (e[0] == "call" and e[1] in ("_withdraw_collateral", "deposit", "_deposit_uni_position",
                                                     "transfer_position_in", "transfer_position_out"))]
            # a path without any mutation needs no check
            if not risky:
                continue
            if not idx_check or max(risky) > max(idx_check):
                bad = (conds, fx)
        n += 1
        res.ob("R-DOM", f"{q}: _check_vault follows the last vault mutation on all {npaths} accepting paths", f.loc(),
               ok=bad is None)
        if bad is not None:
            res.find("R-DOM", q, "vault safety check does not follow every mutation", f.loc(),
                     f"{q}: there is an accepting path on which a vault/wallet mutation is not followed by "
                     f"_check_vault (guards {sorted(map(repr, bad[0]))[:3]})")
    return n


def run(model, tier="quick"):
    res = Result("C14", EXPLANATION)
    res.rules = ["R-FORMULA", "R-PAIR", "R-DOM", "R-CONST", "R-TIME", "R-SIB"]
    res.floor("protocol_constants", const_rule(model, res), 7)
    F = "SqueethMarket."
    formula_check(res, model, F + "get_vault_status", REF_STATUS, "safe iff coll*2 >= debt*3, dust iff coll < 0.5",
                  opaque=["get_twap_price", "_get_effective_collateral_in_eth"])
    formula_check(res, model, F + "_get_effective_collateral_in_eth", REF_COLL,
                  "collateral = ETH + LP ETH + LP oSQTH*nf*twap/1e4 (pending fees included once)",
                  opaque=["get_twap_price", "get_norm_factor", "get_position_amount"])
    formula_check(res, model, F + "get_twap_price", REF_TWAP, "TWAP window [now-6min, now] clipped at the first row",
                  opaque=["calc_twap_price"])
    formula_check(res, model, "squeeth.helper.calc_twap_price", REF_CALC_TWAP, "geometric mean via log base 1.0001")
    formula_check(res, model, F + "_get_single_liquidation_amount", REF_SINGLE,
                  "liquidated = min(input, cap); collateral = liquidated * TWAP(oSQTH) * 1.1", opaque=["get_twap_price"])
    formula_check(res, model, F + "_get_liquidation_result", REF_LIQ_RESULT,
                  "half the debt -> (dust => full debt) -> capped by the vault collateral",
                  opaque=["_get_single_liquidation_amount"])
    formula_check(res, model, F + "_get_reduce_debt_bounty", REF_BOUNTY, "bounty = 2% of (ETH + oSQTH*TWAP)",
                  opaque=["get_twap_price"])
    formula_check(res, model, F + "collateral_amount_to_osqth", REF_MINT_HELPER, "mint amount for a collateral ratio",
                  opaque=["get_twap_price", "get_norm_factor"])
    effects_check(res, model, F + "deposit", REF_DEPOSIT, "deposit moves eth_value wallet -> vault", WALLET, opaque=OPQ)
    effects_check(res, model, F + "_withdraw_collateral", REF_WITHDRAW_COLL,
                  "withdraw clamps to the vault collateral and moves that amount vault -> wallet, then checks", WALLET, opaque=OPQ)
    effects_check(res, model, F + "burn_and_withdraw", REF_BURN,
                  "burn clamps to the vault debt, debits the wallet by the burnt amount, then checks", WALLET, opaque=OPQ)
    effects_check(res, model, F + "_liquidate", REF_LIQUIDATE_INNER,
                  "liquidation reduces short and collateral by the computed amounts", WALLET, opaque=OPQ, keep_raise_effects=False)
    effects_check(res, model, F + "_get_reduce_debt_result_in_vault", REF_REDUCE_IN_VAULT,
                  "LP redemption burns min(oSQTH, debt), adds the ETH, charges the bounty, clears the LP id", WALLET, opaque=OPQ)
    effects_check(res, model, F + "update", REF_UPDATE, "a vault is liquidated iff get_vault_status says not safe",
                  WALLET, opaque=[x for x in OPQ if x != "get_vault_status"])   # the status predicate is inlined
    effects_check(res, model, F + "liquidate", REF_LIQUIDATE_OUTER,
                  "vault liquidation sequence: unsafe only; redeem LP with bounty; stop if safe; add the bounty back; liquidate "
                  "up to the whole debt", WALLET, opaque=OPQ, keep_raise_effects=False, ordered=True)
    effects_check(res, model, F + "_reduce_debt", REF_REDUCE_DEBT,
                  "LP redemption: redeemed amounts go into the vault computation, excess oSQTH to the wallet, record matches",
                  WALLET, opaque=OPQ, ordered=True)
    formula_check(res, model, F + "_check_vault", REF_CHECK_VAULT, "rejects unsafe and dust vaults", opaque=OPQ)
    effects_check(res, model, F + "open_deposit_mint", REF_OPEN_DEPOSIT_MINT,
                  "mint+deposit(+LP): minted oSQTH to wallet and debt, ETH through deposit(), safety check after all mutations",
                  WALLET, opaque=OPQ + ["_get_fee", "collateral_amount_to_osqth"], ordered=True)
    effects_check(res, model, F + "open_deposit_mint_by_collat_rate", REF_OPEN_BY_RATE,
                  "mint amount from the collateral ratio helper", WALLET, opaque=OPQ + ["collateral_amount_to_osqth"])
    effects_check(res, model, F + "buy_squeeth", REF_BUY_SQTH, "long side: buy oSQTH on the pool (ETH budget / oSQTH price)", WALLET + ["buy", "sell"], opaque=OPQ)
    effects_check(res, model, F + "sell_squeeth", REF_SELL_SQTH, "long side: sell oSQTH on the pool", WALLET + ["buy", "sell"], opaque=OPQ)
    res.floor("post_dominance_ops", post_dominance(model, res), 4)
    from . import C01 as _C01, C03 as _C03
    effects_check(res, model, "UniLpMarket.transfer_position_out", _C01.REF_TRANSFER_OUT, "an LP position can be lent to ONE vault only", _C01.FX, keep_raise_effects=True)
    effects_check(res, model, "UniLpMarket.transfer_position_in", _C01.REF_TRANSFER_IN, "only a lent position is taken back", _C01.FX, keep_raise_effects=True)
    effects_check(res, model, "SqueethMarket._redeem_uni_token", _C01.REF_REDEEM, "redeemed LP amounts include the accrued fees and are (weth, osqth) by token, whatever the pool's quote token", _C01.FX)
    # (base, quote)-ordered results of the pool taken apart outside the Uniswap package: orientation must be consulted
    from ..rules.orientx import orientation_rule
    if "R-ORIENT" not in res.rules:
        res.rules.append("R-ORIENT")
    ox = orientation_rule(model, res)
    res.floor("base_quote_pair_producers", ox["producers"], 5)
    res.floor("base_quote_pairs_consumed_outside_uniswap", ox["sites"], 1)
    wfx = ["sub", "add", "subtract_from_balance", "add_to_balance", "__add_asset", "_record_action_callback"]
    effects_check(res, model, "Asset.sub", _C03.REF_ASSET_SUB, "wallet debit: an empty or insufficient balance rejects", wfx)
    # constructors establish the relations between fields that the references above take for granted
    from .ctor_refs import constructors
    res.units["constructor_references"] = constructors(res, model, ('squeeth', 'market'))
    from ..rules.fresh import fresh_rule
    if "R-FRESH" not in res.rules:
        res.rules.append("R-FRESH")
    fresh_rule(model, res, scope=('demeter/squeeth/', 'demeter/uniswap/'))
    res.assumptions = ["norm_factor / price columns of the data are sane (data)",
                       "pandas label slicing data[a:b] is inclusive on both ends (7 one-minute rows for a 6 minute span)"]
    res.not_decided = ["Decimal/float mixing inside calc_twap_price", "negative collateral after the reduce-debt bounty "
                       "(reported under C03)"]
    return res


MANIFEST = {
    "technique": "formula and ledger identity against references (value numbering), constant table, post-dominance of the safety check over effect traces, LP pairing and wallet-debit references, def-use rule for (base, quote) pairs consumed across markets",
    "claim": "Vault status, effective collateral, TWAP window and mean, liquidation amounts, bounty and the mint helper are "
             "identical as canonical expressions to references transcribed from the statement; the vault operations' "
             "ledgers (which amount moves between wallet and vault, clamps, records) equal reference ledgers on every "
             "path; the safety check follows the last mutation on every accepting path of the four risk-increasing "
             "operations; liquidation is triggered iff the same predicate is false; protocol constants match.",
    "note": "Trusted: references in sa/props/C14.py, helper functions as opaque atoms, pandas inclusive label slicing. "
            "Not decided: data sanity, Decimal/float mixing. The check-after-mutate ordering itself is the C04 known finding.",
}
