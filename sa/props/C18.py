"""C18 -- time triggers fire on exactly the bars their specification denotes."""
from __future__ import annotations

import ast

from ..model import AnalysisError
from ..report import Result
from ..rules.formula import effects_check, formula_check

EXPLANATION = (
    "Each trigger class's when()/is_out_date()/constructor is compared, as canonical predicates, with a reference that "
    "states the firing set and the retirement rule of the statement: at a time (ts == T, retire when t >= T), at listed "
    "times (ts in {T_i}, retire when t >= max T_i), ranges (start <= ts < end; retire when t >= end resp. >= the LATEST "
    "end), period (first call arms ts + period + delay and returns the immediate flag; a match advances by exactly one "
    "period). Retirement soundness follows on the order domain: is_out_date(t) implies t >= every time at which when can "
    "still hold. PeriodsTrigger is checked structurally (R-LOOPEXIT): arming of all periods with the delay on the first "
    "call, and a per-period loop that advances every due period and contains no return/break, returning whether any was "
    "due. R-KIND: `in` tests a scalar against a container. Trigger.do forwards **kwargs once and no subclass overrides it; "
    "times are normalised to the minute in constructors. R-PHASE: the bar loop iterates the strategy's live trigger list, "
    "fires (when -> do) before it retires, and retires from the live list with the current bar's time."
)

T = "strategy.trigger."
REFS = [
    ("AtTimeTrigger.when", "def when(self, snapshot):\n    return snapshot.timestamp == self._time\n", "fires iff ts == T"),
    ("AtTimeTrigger.is_out_date", "def is_out_date(self, t):\n    return t >= self._time\n", "retired from T on"),
    ("AtTimesTrigger.when", "def when(self, snapshot):\n    return snapshot.timestamp in self._time\n", "fires iff ts is one of the listed times"),
    ("AtTimesTrigger.is_out_date", "def is_out_date(self, t):\n    return t >= max(self._time)\n", "retired from the latest listed time on"),
    ("TimeRangeTrigger.when", "def when(self, snapshot):\n    r = self._time_range\n    return r.start <= snapshot.timestamp and snapshot.timestamp < r.end\n",
     "fires iff start <= ts < end"),
    ("TimeRangeTrigger.is_out_date", "def is_out_date(self, t):\n    return t >= self._time_range.end\n", "retired from end on"),
    ("TimeRangesTrigger.when", "def when(self, snapshot):\n    return any([r.start <= snapshot.timestamp < r.end for r in self._time_range])\n",
     "fires iff ts lies in one of the ranges"),
    ("TimeRangesTrigger.is_out_date", "def is_out_date(self, t):\n    return t >= max([r.end for r in self._time_range])\n",
     "retired from the LATEST end on"),
    ("Trigger.when", "def when(self, snapshot):\n    return False\n", "base trigger never fires"),
    ("Trigger.is_out_date", "def is_out_date(self, t):\n    return False\n", "base trigger is never retired"),
    (T + "to_minute", "def to_minute(time):\n    return datetime(time.year, time.month, time.day, time.hour, time.minute)\n", "truncate to the minute"),
]

REF_PERIOD_WHEN = '''
def when(self, snapshot):
    if self._next_match is None:
        self._next_match = snapshot.timestamp + self._delta + self._pending
        return self._trigger_immediately
    if self._next_match == snapshot.timestamp:
        self._next_match = self._next_match + self._delta
        return True
    return False
'''

INITS = {
    "AtTimeTrigger": ("_time", "to_minute(time)"),
    "AtTimesTrigger": ("_time", "[to_minute(t) for t in time]"),
    "TimeRangeTrigger": ("_time_range", "TimeRange(to_minute(time_range.start), to_minute(time_range.end))"),
    "TimeRangesTrigger": ("_time_range", "[TimeRange(to_minute(t.start), to_minute(t.end)) for t in time_range]"),
}


def periods_shape(model, res):
    f = model.func("PeriodsTrigger.when")
    body = [s for s in f.node.body if not (isinstance(s, ast.Expr) and isinstance(s.value, ast.Constant))]
    problems = []
    # first call arms every period with delay
    first = body[0] if body else None
    arm_ok = False
    if isinstance(first, ast.If) and ast.unparse(first.test) == "self._next_matches[0] is None" and len(first.body) == 2:
        a, r = first.body
        arm_ok = (isinstance(a, ast.Assign) and ast.unparse(a.targets[0]) == "self._next_matches"
                  and isinstance(a.value, ast.ListComp) and ast.unparse(a.value.generators[0].iter) == "self._deltas"
                  and not a.value.generators[0].ifs
                  and sorted(ast.unparse(a.value.elt).replace(" ", "").split("+")) == sorted(
                      ["snapshot.timestamp", a.value.generators[0].target.id, "self._pending"])
                  and isinstance(r, ast.Return) and ast.unparse(r.value) == "self._trigger_immediately")
    res.ob("R-SHAPE", "first call arms every period at ts + period + delay and returns the immediate flag", f.loc(first or f.node), ok=arm_ok)
    if not arm_ok:
        problems.append((first or f.node, "first-call arming is not `[ts + d + pending for d in deltas]` / `return trigger_immediately`"))
    loops = [s for s in body if isinstance(s, ast.For)]
    if len(loops) != 1:
        raise AnalysisError("C18: PeriodsTrigger.when: per-period loop not found")
    lp = loops[0]
    idx = lp.target.id if isinstance(lp.target, ast.Name) else None
    iter_ok = ast.unparse(lp.iter) in ("range(len(self._deltas))", "range(len(self._next_matches))")
    exits = [n for n in ast.walk(lp) if isinstance(n, (ast.Return, ast.Break))]
    res.ob("R-LOOPEXIT", "the per-period loop has no return/break (periods are independent)", f.loc(lp), ok=not exits and iter_ok)
    if exits:
        problems.append((exits[0], "the per-period loop leaves at the first due period (return/break); another period due on the same "
                                   "bar is not advanced and never fires again"))
    if not iter_ok:
        problems.append((lp, f"per-period loop iterates `{ast.unparse(lp.iter)}`"))
    adv_ok = False
    flag = None
    for s in lp.body:
        if isinstance(s, ast.If) and ast.unparse(s.test) in (f"self._next_matches[{idx}] == snapshot.timestamp",
                                                              f"snapshot.timestamp == self._next_matches[{idx}]"):
            for b in s.body:
                txt = ast.unparse(b).replace(" ", "")
                if txt in (f"self._next_matches[{idx}]=self._next_matches[{idx}]+self._deltas[{idx}]",
                           f"self._next_matches[{idx}]+=self._deltas[{idx}]"):
                    adv_ok = True
                if isinstance(b, ast.Assign) and isinstance(b.targets[0], ast.Name) and isinstance(b.value, ast.Constant) \
                        and b.value.value is True:
                    flag = b.targets[0].id
    res.ob("R-SHAPE", "a due period advances by exactly its own period", f.loc(lp), ok=adv_ok)
    if not adv_ok:
        problems.append((lp, "a due period is not advanced by its own period"))
    ret = body[-1]
    ret_ok = isinstance(ret, ast.Return) and flag is not None and ast.unparse(ret.value) == flag
    init_ok = any(isinstance(s, ast.Assign) and isinstance(s.targets[0], ast.Name) and s.targets[0].id == flag
                  and isinstance(s.value, ast.Constant) and s.value.value is False for s in body)
    if not exits:
        res.ob("R-SHAPE", "when() returns whether any period was due (flag starts False)", f.loc(ret), ok=ret_ok and init_ok)
        if not (ret_ok and init_ok):
            problems.append((ret, "the result is not the any-period-due flag"))
    for node, msg in problems:
        res.find("R-LOOPEXIT" if "loop" in msg else "R-SHAPE", f.qualname, msg, f.loc(node), f"PeriodsTrigger.when: {msg}")


def do_and_init(model, res):
    base = model.cls("Trigger")
    f = base.methods["do"]
    rets = [n for n in ast.walk(f.node) if isinstance(n, ast.Return)]
    ok = len(rets) == 1 and ast.unparse(rets[0].value) == "self._do(snapshot, **self.kwargs)" and \
        sum(1 for n in ast.walk(f.node) if isinstance(n, ast.Call)) == 1
    res.ob("R-SHAPE", "Trigger.do calls the action once with the snapshot and **kwargs", f.loc(), ok=ok)
    if not ok:
        res.find("R-SHAPE", "Trigger.do", "action is not called exactly once with **self.kwargs", f.loc(),
                 f"Trigger.do is `{ast.unparse(f.node.body[-1])[:100]}`")
    over = [c.name for c in model.subclasses("Trigger") if "do" in c.methods]
    res.ob("R-SHAPE", f"no trigger subclass overrides do ({len(model.subclasses('Trigger'))} subclasses)", base.module.relpath, ok=not over)
    for c in over:
        res.find("R-SHAPE", f"{c}.do", "subclass overrides do", base.module.relpath, f"{c} overrides Trigger.do")
    n = 0
    for cname, (field, want) in INITS.items():
        init = model.cls(cname).methods.get("__init__")
        if init is None:
            raise AnalysisError(f"C18: {cname}.__init__ not found")
        got = None
        for s in ast.walk(init.node):
            if isinstance(s, (ast.Assign, ast.AnnAssign)):
                tg = s.targets[0] if isinstance(s, ast.Assign) else s.target
                if ast.unparse(tg) == f"self.{field}":
                    got = ast.unparse(s.value)
        n += 1
        good = got is not None and got.replace(" ", "") == want.replace(" ", "")
        res.ob("R-SHAPE", f"{cname} normalises its times to the minute", init.loc(), ok=good, detail=str(got))
        if not good:
            res.find("R-SHAPE", f"{cname}.__init__", f"self.{field} = {got}", init.loc(),
                     f"{cname} stores `{got}`; the specification times must be truncated to the minute ({want})")
    return n


def loop_phase(model, res):
    f = model.func("Actuator.run")
    fire = None
    retire = None
    for n in ast.walk(f.node):
        if isinstance(n, ast.For) and isinstance(n.target, ast.Name):
            calls = [ast.unparse(c.func) for c in ast.walk(n) if isinstance(c, ast.Call)]
            if f"{n.target.id}.when" in calls and f"{n.target.id}.do" in calls:
                fire = n
        if isinstance(n, ast.Assign) and ast.unparse(n.targets[0]) == "self._strategy.triggers":
            retire = n
    if fire is None or retire is None:
        raise AnalysisError("C18: trigger evaluation / retirement not found in Actuator.run")
    live = ast.unparse(fire.iter) == "self._strategy.triggers"
    res.ob("R-PHASE", "triggers are evaluated over the strategy's live list", f.loc(fire), ok=live, detail=ast.unparse(fire.iter))
    if not live:
        res.find("R-PHASE", "Actuator.run", f"triggers evaluated over `{ast.unparse(fire.iter)}`", f.loc(fire),
                 f"the bar loop iterates `{ast.unparse(fire.iter)}` instead of the live self._strategy.triggers; triggers registered "
                 f"by a trigger action are not part of what is kept")
    # when guards do
    guard_ok = False
    for s in fire.body:
        if isinstance(s, ast.If) and ast.unparse(s.test) == f"{fire.target.id}.when(snapshot)":
            guard_ok = any(isinstance(b, ast.Expr) and ast.unparse(b.value) == f"{fire.target.id}.do(snapshot)" for b in s.body) \
                and len(s.body) == 1 and not s.orelse
    res.ob("R-PHASE", "do(snapshot) is called exactly when when(snapshot) holds", f.loc(fire), ok=guard_ok)
    if not guard_ok:
        res.find("R-PHASE", "Actuator.run", "when/do pairing changed", f.loc(fire), "the trigger loop no longer calls do(snapshot) once iff when(snapshot)")
    v = retire.value
    ret_ok = isinstance(v, ast.ListComp) and ast.unparse(v.generators[0].iter) == "self._strategy.triggers" \
        and len(v.generators[0].ifs) == 1 and ast.unparse(v.generators[0].ifs[0]) == f"not {v.generators[0].target.id}.is_out_date(self._currents.timestamp)" \
        and ast.unparse(v.elt) == v.generators[0].target.id
    res.ob("R-PHASE", "retirement keeps exactly the live triggers that are not out of date at the current bar", f.loc(retire), ok=ret_ok,
           detail=ast.unparse(v)[:120])
    if not ret_ok:
        res.find("R-PHASE", "Actuator.run", f"retirement `{ast.unparse(retire)[:100]}`", f.loc(retire),
                 "the retirement step must rebuild the list from the live self._strategy.triggers keeping those with "
                 "`not is_out_date(current bar)`")
    order_ok = fire.lineno < retire.lineno
    res.ob("R-PHASE", "triggers fire before they are retired", f.loc(retire), ok=order_ok)
    if not order_ok:
        res.find("R-PHASE", "Actuator.run", "retirement precedes firing", f.loc(retire), "triggers are retired before they are evaluated in the bar")


def run(model, tier="quick"):
    res = Result("C18", EXPLANATION)
    res.rules = ["R-ORD", "R-KIND", "R-LOOPEXIT", "R-SHAPE", "R-PHASE", "R-FORMULA"]
    for q, src, what in REFS:
        formula_check(res, model, q, src, what, opaque=["to_minute"] if not q.endswith("to_minute") else [])
    effects_check(res, model, "PeriodTrigger.when", REF_PERIOD_WHEN,
                  "first call arms ts + period + delay and returns the immediate flag; a match advances by one period", [])
    periods_shape(model, res)
    res.floor("constructors", do_and_init(model, res), 4)
    loop_phase(model, res)
    res.floor("obligations", len(res.obligations), 22)
    res.assumptions = ["bars are minute-aligned datetimes (to_minute normalises the specification, not the bar)"]
    res.not_decided = ["periods that do not divide the bar interval (specification silent)", "PriceTrigger / CustomizedTrigger (user predicates)"]
    return res


MANIFEST = {
    "technique": "predicate identity on canonical comparison forms (order domain) for when/is_out_date, loop-exit and shape rules for the stateful period triggers, phase rule for the bar loop",
    "claim": "For every time-trigger class the firing predicate and the retirement predicate equal the statement's "
             "(exact firing set; retired only from a time on after which the predicate cannot hold); period triggers arm "
             "with period+delay, honour the immediate flag and advance each due period independently; the action is called "
             "once with the extra arguments; the bar loop fires from the live list before it retires from the live list.",
    "note": "Trusted: references in sa/props/C18.py; recognisers for the PeriodsTrigger loop and the bar-loop statements "
            "(a changed shape is an analysis error). Not decided: periods that do not divide the bar interval.",
}
