"""C18 -- time triggers fire on exactly the bars their specification denotes."""
from __future__ import annotations

import ast

from ..model import AnalysisError
from ..report import Result
from ..rules.formula import effects_check, formula_check

EXPLANATION = (
    "Each trigger class's when()/is_out_date()/constructor is compared, as canonical predicates, with a reference that "
    "states the firing set and the retirement rule of the statement: at a time (ts == T, retire when t >= T), at listed "
    "times (ts in {T_i}, retire when t >= max T_i), ranges (start <= ts < end; retire when t >= end resp. >= the LATEST "
    "end), period (first call arms ts + period + delay and returns the immediate flag; a match advances by exactly one "
    "period). Retirement soundness follows on the order domain: is_out_date(t) implies t >= every time at which when can "
    "still hold. PeriodsTrigger is checked structurally (R-LOOPEXIT): arming of all periods with the delay on the first "
    "call, and a per-period loop that advances every due period and contains no return/break, returning whether any was "
    "due. R-KIND: `in` tests a scalar against a container. Trigger.do forwards **kwargs once and no subclass overrides it; "
    "times are normalised to the minute in constructors. R-PHASE: the bar loop iterates the strategy's live trigger list, "
    "fires (when -> do) before it retires, and retires from the live list with the current bar's time."
)

T = "strategy.trigger."
REFS = [
    ("AtTimeTrigger.when", "def when(self, snapshot):\n    return snapshot.timestamp == self._time\n", "fires iff ts == T"),
    ("AtTimeTrigger.is_out_date", "def is_out_date(self, t):\n    return t >= self._time\n", "retired from T on"),
    ("AtTimesTrigger.when", "def when(self, snapshot):\n    return snapshot.timestamp in self._time\n", "fires iff ts is one of the listed times"),
    ("AtTimesTrigger.is_out_date", "def is_out_date(self, t):\n    return t >= max(self._time)\n", "retired from the latest listed time on"),
    ("TimeRangeTrigger.when", "def when(self, snapshot):\n    r = self._time_range\n    return r.start <= snapshot.timestamp and snapshot.timestamp < r.end\n",
     "fires iff start <= ts < end"),
    ("TimeRangeTrigger.is_out_date", "def is_out_date(self, t):\n    return t >= self._time_range.end\n", "retired from end on"),
    ("TimeRangesTrigger.when", "def when(self, snapshot):\n    return any([r.start <= snapshot.timestamp < r.end for r in self._time_range])\n",
     "fires iff ts lies in one of the ranges"),
    ("TimeRangesTrigger.is_out_date", "def is_out_date(self, t):\n    return t >= max([r.end for r in self._time_range])\n",
     "retired from the LATEST end on"),
    ("Trigger.when", "def when(self, snapshot):\n    return False\n", "base trigger never fires"),
    ("Trigger.is_out_date", "def is_out_date(self, t):\n    return False\n", "base trigger is never retired"),
    (T + "to_minute", "def to_minute(time):\n    return datetime(time.year, time.month, time.day, time.hour, time.minute)\n", "truncate to the minute"),
]

REF_PERIOD_WHEN = '''
def when(self, snapshot):
    if self._next_match is None:
        self._next_match = snapshot.timestamp + self._delta + self._pending
        return self._trigger_immediately
    if self._next_match == snapshot.timestamp:
        self._next_match = self._next_match + self._delta
        return True
    return False
'''

REF_PERIODS_WHEN = '''
def when(self, snapshot):
    if self._next_matches[0] is None:
        self._next_matches = [snapshot.timestamp + d + self._pending for d in self._deltas]
        return self._trigger_immediately
    hit = False
    for i in range(len(self._deltas)):
        if self._next_matches[i] == snapshot.timestamp:
            self._next_matches[i] = self._next_matches[i] + self._deltas[i]
            hit = True
    return hit
'''

INIT_REFS = {
    "AtTimeTrigger": "def __init__(self, time, do, **kwargs):\n    self._time = to_minute(time)\n",
    "AtTimesTrigger": "def __init__(self, time, do, **kwargs):\n    self._time = [to_minute(t) for t in time]\n",
    "TimeRangeTrigger": "def __init__(self, time_range, do, **kwargs):\n"
                        "    self._time_range = TimeRange(to_minute(time_range.start), to_minute(time_range.end))\n",
    "TimeRangesTrigger": "def __init__(self, time_range, do, **kwargs):\n"
                         "    self._time_range = [TimeRange(to_minute(t.start), to_minute(t.end)) for t in time_range]\n",
    # periodic triggers keep the period(s) and the delay EXACTLY as given (a delay longer than the period is a longer
    # delay) and start unarmed
    "PeriodTrigger": "def __init__(self, time_delta, do, trigger_immediately=False, pending=timedelta(minutes=0), **kwargs):\n"
                     "    self._next_match = None\n    self._delta = time_delta\n"
                     "    self._trigger_immediately = trigger_immediately\n    self._pending = pending\n",
    "PeriodsTrigger": "def __init__(self, time_delta, do, trigger_immediately=False, pending=timedelta(minutes=0), **kwargs):\n"
                      "    self._next_matches = [None for _ in time_delta]\n    self._deltas = time_delta\n"
                      "    self._trigger_immediately = trigger_immediately\n    self._pending = pending\n",
}


def do_and_init(model, res):
    base = model.cls("Trigger")
    formula_check(res, model, "Trigger.do", "def do(self, snapshot):\n    return self._do(snapshot, **self.kwargs)\n",
                  "the action is called once with the snapshot and the extra keyword arguments", rule="R-SHAPE")
    over = [c.name for c in model.subclasses("Trigger") if "do" in c.methods]
    res.ob("R-SHAPE", f"no trigger subclass overrides do ({len(model.subclasses('Trigger'))} subclasses)", base.module.relpath, ok=not over)
    for c in over:
        res.find("R-SHAPE", f"{c}.do", "subclass overrides do", base.module.relpath, f"{c} overrides Trigger.do")
    n = 0
    for cname, ref in INIT_REFS.items():
        init = model.cls(cname).methods.get("__init__")
        if init is None:
            raise AnalysisError(f"C18: {cname}.__init__ not found")
        effects_check(res, model, init, ref, f"{cname} stores its specification truncated to the minute", [], opaque=["to_minute"],
                      rule="R-SHAPE", store_fields=["_time", "_time_range", "_next_match", "_next_matches", "_delta", "_deltas", "_trigger_immediately",
                                                    "_pending"])
        n += 1
    return n


def loop_phase(model, res):
    # the trigger phases of the bar loop, as an ordered effect trace: evaluation over the live list (when guards do),
    # then retirement from the live list with the current bar's time; everything else in the loop belongs to C05
    from .C05 import ANCHORS, REF_RUN
    keep = {"when", "do", "is_out_date"}
    effects_check(res, model, "Actuator.run", REF_RUN,
                  "bar loop: triggers fire (do iff when) from the strategy's live list, then the list is rebuilt from the live "
                  "list keeping those not out of date at the current bar", ANCHORS,
                  ignore_calls=[a for a in ANCHORS if a not in keep], ordered=True, opaque=["time"], rule="R-PHASE",
                  store_fields=["triggers", "timestamp"])


def run(model, tier="quick"):
    res = Result("C18", EXPLANATION)
    res.rules = ["R-ORD", "R-KIND", "R-LOOPEXIT", "R-SHAPE", "R-PHASE", "R-FORMULA"]
    for q, src, what in REFS:
        formula_check(res, model, q, src, what, opaque=["to_minute"] if not q.endswith("to_minute") else [])
    effects_check(res, model, "PeriodTrigger.when", REF_PERIOD_WHEN,
                  "first call arms ts + period + delay and returns the immediate flag; a match advances by one period", [])
    effects_check(res, model, "PeriodsTrigger.when", REF_PERIODS_WHEN,
                  "first call arms every period at ts + period + delay and returns the immediate flag; afterwards every due "
                  "period advances by its own period (no early exit) and the result is whether any was due", [], rule="R-LOOPEXIT")
    res.floor("constructors", do_and_init(model, res), 4)
    loop_phase(model, res)
    res.floor("obligations", len(res.obligations), 20)
    # premise: the run starts with the triggers the strategy holds (registered in __init__ or from outside) plus those of
    # initialize(): init_strategy does not touch the list
    from . import C05 as _C05
    effects_check(res, model, "Actuator.init_strategy", _C05.REF_INIT_STRATEGY,
                  "init_strategy: strategy wiring, then initialize(); the trigger list the strategy holds is not reset",
                  ["initialize", "notify", "setattr", "set_default_key"], aliases={"broker": "self._broker"}, ordered=True)
    from ..rules.fresh import fresh_rule
    if "R-FRESH" not in res.rules:
        res.rules.append("R-FRESH")
    fresh_rule(model, res, scope=('demeter/strategy/', 'demeter/core/'))
    res.assumptions = ["bars are minute-aligned datetimes (to_minute normalises the specification, not the bar)"]
    res.not_decided = ["periods that do not divide the bar interval (specification silent)", "PriceTrigger / CustomizedTrigger (user predicates)"]
    return res


MANIFEST = {
    "technique": "predicate identity on canonical comparison forms (order domain) for when/is_out_date, loop-exit and shape rules for the stateful period triggers, phase rule for the bar loop",
    "claim": "For every time-trigger class the firing predicate and the retirement predicate equal the statement's "
             "(exact firing set; retired only from a time on after which the predicate cannot hold); period triggers arm "
             "with period+delay, honour the immediate flag and advance each due period independently (constructors compared with references: the delay is stored unchanged); the action is called "
             "once with the extra arguments; the bar loop fires from the live list before it retires from the live list.",
    "note": "Trusted: references in sa/props/C18.py; recognisers for the PeriodsTrigger loop and the bar-loop statements "
            "(a changed shape is an analysis error). Not decided: periods that do not divide the bar interval.",
}
